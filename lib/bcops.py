"""C02: the threaded-code layer of the bytecode interpreter (bcint/ops.rs, bcint/mod.rs).

BC-EFFECT  for every arithmetic/copy bytecode form and operand class, the `op_match!` cascade of `emit`
           (macro-expanded source) is evaluated to the threaded-code words it pushes; the selected op
           function is then evaluated over exactly those words (reader side) and its net effect on
           registers, temporaries and tape must be dst := src0 op src1 (+ zeroing of MemZero sources),
           with writer and reader agreeing on every union field, and the continuation receiving
           (cxt, mem, next ip, r0', r1').  Covers BC-OP, BC-SLOTS, BC-COVER of the design.
BC-FIXED   fixed-layout ops (scan/mov/input/output/brz/brnz/limit/ret): slots read = slots pushed,
           same union field, operand roles agree, continuation skips exactly the pushed words.
BC-THREAD  every op forwards (cxt, mem, ip', r0, r1) positionally; both `noop` variants and the
           trampoline spill/reload the same state.
BC-SIMUL   bc::CodeGen::emit_block evaluates all expressions of a multi-assignment before any store.
"""
from common import *
from rusteval import *
from sel import set_partitions

OPS = "src/exec/bcint/ops.rs"
BCMOD = "src/exec/bcint/mod.rs"
BC = "src/bc.rs"


class TmpS:
    def __init__(self, cls):
        self.cls = cls

    def __repr__(self):
        return f"t{self.cls}"


class OffS:
    def __init__(self, cls):
        self.cls = cls

    def __repr__(self):
        return f"m{self.cls}"


class ImmC:
    def __init__(self, kind):
        self.kind = kind    # zero | one | negone | other

    def poly(self):
        return {"zero": Poly.const(0), "one": Poly.const(1), "negone": Poly.const(-1), "other": Poly.var("imm")}[self.kind]

    def __repr__(self):
        return {"zero": "0", "one": "1", "negone": "-1", "other": "imm"}[self.kind]


class LocB:
    def __init__(self, kind, v):
        self.kind, self.v = kind, v

    def __repr__(self):
        return f"{self.kind}({self.v!r})"


class InstrB:
    def __init__(self, op, locs):
        self.op, self.locs = op, locs

    def __repr__(self):
        return f"{self.op}({', '.join(map(repr, self.locs))})"


class SignS:
    """A shift known only by its sign."""

    def __init__(self, neg, name="shift"):
        self.neg, self.name = neg, name

    def __repr__(self):
        return f"{self.name}{'<0' if self.neg else '>=0'}"


class OpRef:
    def __init__(self, name, generics):
        self.name, self.generics = name, generics

    def __repr__(self):
        return f"{self.name}::<{', '.join(self.generics)}>"


class EmitInterp(Interp):
    """Evaluates `emit(insts, instr, safe)` (expanded) for one abstract instruction."""

    def __init__(self):
        super().__init__()
        self.words = []

    def eval(self, e, env):
        if e["t"] == "PathExpr":
            name = e["path"]["name"]
            segs = e["path"]["segs"]
            if len(segs) == 1 and segs[0]["args"] and not env.has(name):
                gens = [(g.get("s") if g.get("s") is not None else str(g.get("value")).lower()) for g in segs[0]["args"]
                        if g.get("t") != "TyInfer" and g.get("s") != "_"]
                return OpRef(name, gens)
            if len(segs) == 1 and not env.has(name) and name[0].islower():
                return OpRef(name, [])
        return super().eval(e, env)

    def path_value(self, name, node):
        if name == "C::ZERO":
            return ImmC("zero")
        if name == "C::ONE":
            return ImmC("one")
        if name == "C::NEG_ONE":
            return ImmC("negone")
        raise Unanalysable(f"path {name}")

    def struct_expr(self, name, fields, node):
        if name == "OpCode" and len(fields) == 1:
            (k, v), = fields.items()
            return ("word", k.split("__h")[0], v)     # shorthand `OpCode { idx }` carries the renamed binding
        raise Unanalysable(f"struct {name}")

    def method(self, recv, name, targs, args, node):
        if recv == "insts" and name == "push":
            w = args[0]
            if not (isinstance(w, tuple) and w[0] == "word"):
                raise Unanalysable("push of a non-OpCode")
            self.words.append((w[1], w[2]))
            return UNIT
        raise Unanalysable(f".{name}() on {recv!r}")

    def match_ctor(self, name, elems, val, env, node):
        if name.startswith("Instr::"):
            if not isinstance(val, InstrB):
                raise Unanalysable("Instr pattern")
            if name[7:] != val.op or len(elems) != len(val.locs):
                return False
            return all(self.match(p, v, env) for p, v in zip(elems, val.locs))
        if name.startswith("Loc::"):
            if not isinstance(val, LocB):
                raise Unanalysable("Loc pattern")
            return name[5:] == val.kind and self.match(elems[0], val.v, env)
        raise Unanalysable(f"pattern {name}")

    def match_path(self, name, val, node):
        if name.startswith("Instr::"):
            return isinstance(val, InstrB) and val.op == name[7:]
        raise Unanalysable(name)

    def equal(self, a, b, node):
        if isinstance(a, ImmC) and isinstance(b, ImmC):
            if a.kind == "other" or b.kind == "other":
                return a is b
            return a.kind == b.kind
        if isinstance(a, TmpS) and isinstance(b, TmpS):
            return a.cls == b.cls
        if isinstance(a, OffS) and isinstance(b, OffS):
            return a.cls == b.cls
        if isinstance(a, TmpS) and isinstance(b, int) or isinstance(b, TmpS) and isinstance(a, int):
            return False       # TmpS stands for an index >= 2
        return super().equal(a, b, node)

    def binary(self, op, l, r, node):
        if isinstance(l, SignS) and r == 0 and op in ("<", ">=", "<=", ">"):
            if op == "<":
                return l.neg
            if op == ">=":
                return not l.neg
            raise Unanalysable("comparison of a shift known only by sign")
        if isinstance(r, SignS) and l == 0 and op in ("<", ">=", "<=", ">"):
            # 0 > s == s < 0 ;  0 <= s == s >= 0
            if op == ">":
                return r.neg
            if op == "<=":
                return not r.neg
            raise Unanalysable("comparison of a shift known only by sign")
        if isinstance(l, OffS) and isinstance(r, int) and op in ("<", ">="):
            raise Unanalysable("sign of a symbolic shift")
        return super().binary(op, l, r, node)


# ----------------------------------------------------------------------------- reader side

class IpV:
    def __init__(self, k):
        self.k = k

    def __repr__(self):
        return f"ip+{self.k}"


class SlotRef:
    def __init__(self, k):
        self.k = k


class CellRef:
    def __init__(self, kind, key):
        self.kind, self.key = kind, key


class OpInterp(Interp):
    def __init__(self, ast, impls, words, state, generics):
        super().__init__()
        self.ast, self.impls, self.words, self.state, self.generics = ast, impls, words, state, generics
        self.cont = None
        self.reads = []
        self.problems = []

    def path_value(self, name, node):
        if name in ("C::ZERO",):
            return Poly.const(0)
        if name == "C::ONE":
            return Poly.const(1)
        if name == "C::NEG_ONE":
            return Poly.const(-1)
        if "::" in name:
            ty, item = name.split("::", 1)
            if ty in self.generics and item == "SHIFT":
                return self.impls[self.generics[ty]]["SHIFT"]
        raise Unanalysable(f"path {name}")

    def call(self, name, targs, args, node):
        if "::" in name:
            ty, item = name.split("::", 1)
            if ty in self.generics and item in ("read", "write"):
                st = self.generics[ty]
                f = self.impls[st].get(item)
                if f is None:
                    raise Unanalysable(f"{st} has no {item}")
                return self.call_fn(f, args)
        if name == "temps_ptr":
            return ("temps",)
        if name == "noop":
            if len(args) != 5:
                raise Unanalysable("noop arity")
            self.cont = args
            return ("cont",)
        raise Unanalysable(f"call {name}")

    def call_fn(self, fn, args):
        env = Env()
        params = [p for p in fn["sig"]["inputs"] if p["t"] == "Arg"]
        for p, a in zip(params, args):
            self.match(p["pat"], a, env)
        try:
            return self.exec_block(fn["body"], env)
        except ReturnEx as r:
            return r.value

    def method(self, recv, name, targs, args, node):
        if isinstance(recv, IpV) and name == "add" and isinstance(args[0], int):
            return IpV(recv.k + args[0])
        if recv == "mem" and name in ("offset", "wrapping_offset") and isinstance(args[0], OffS):
            return CellRef("mem", args[0].cls)
        if recv == ("temps",) and name == "add":
            if isinstance(args[0], TmpS):
                return CellRef("tmp", args[0].cls)
            raise Unanalysable(f"temps index {args[0]!r}")
        if isinstance(recv, Poly):
            if name == "wrapping_add" and isinstance(args[0], Poly):
                return recv + args[0]
            if name == "wrapping_mul" and isinstance(args[0], Poly):
                return recv * args[0]
            if name == "wrapping_neg":
                return -recv
        raise Unanalysable(f".{name}() on {recv!r}")

    def unary(self, op, v, node):
        if op == "*":
            if isinstance(v, IpV):
                return SlotRef(v.k)
            if isinstance(v, CellRef):
                return self.state[(v.kind, v.key)]
        return super().unary(op, v, node)

    def field(self, base, member, node):
        if isinstance(base, SlotRef):
            if base.k >= len(self.words):
                raise Unanalysable(f"reads word {base.k} beyond the {len(self.words)} words the writer pushed")
            fld, val = self.words[base.k]
            self.reads.append(base.k)
            if fld != member:
                self.problems.append(f"word {base.k} was written as `{fld}` but is read as `{member}` (union field mismatch)")
            if isinstance(val, ImmC):
                return val.poly()
            return val
        return super().field(base, member, node)

    def assign_place(self, place, value, env, node):
        p = strip_paren(place)
        if p["t"] == "Unary" and p["op"] == "*":
            tgt = self.eval(p["expr"], env)
            if isinstance(tgt, CellRef):
                self.state[(tgt.kind, tgt.key)] = value
                return
            raise Unanalysable("store through a pointer the rule does not model")
        return super().assign_place(place, value, env, node)


def op_impls(ast):
    """struct name -> {'SHIFT': int, 'read': fn, 'write': fn}"""
    out = {}
    for it in ast.items(OPS, "Impl"):
        if not it["trait"] or it["trait"]["name"] not in ("OpRead", "OpWrite"):
            continue
        st = it["self_ty"]["s"]
        d = out.setdefault(st, {})
        for x in it["items"]:
            if x["t"] == "Const" and x["name"] == "SHIFT":
                d["SHIFT"] = int_lit(x["expr"])
            if x["t"] == "Fn":
                d[x["name"]] = x
    return out


def loc_options(dst):
    if dst:
        return ["T0", "T1", "Tk", "M"]
    return ["T0", "T1", "Tk", "M", "MZ", "I0", "I1", "Im1", "Iv"]


def build_instr(op, kinds, tpart, mpart):
    tpos = [i for i, k in enumerate(kinds) if k == "Tk"]
    mpos = [i for i, k in enumerate(kinds) if k in ("M", "MZ")]
    tc = dict(zip(tpos, tpart))
    mc = dict(zip(mpos, mpart))
    locs = []
    imm = None
    for i, k in enumerate(kinds):
        if k == "T0":
            locs.append(LocB("Tmp", 0))
        elif k == "T1":
            locs.append(LocB("Tmp", 1))
        elif k == "Tk":
            locs.append(LocB("Tmp", TmpS(tc[i])))
        elif k == "M":
            locs.append(LocB("Mem", OffS(mc[i])))
        elif k == "MZ":
            locs.append(LocB("MemZero", OffS(mc[i])))
        else:
            locs.append(LocB("Imm", ImmC({"I0": "zero", "I1": "one", "Im1": "negone", "Iv": "other"}[k])))
    return InstrB(op, locs)


def loc_value(l, init):
    if l.kind == "Tmp":
        if l.v == 0:
            return init[("r", 0)]
        if l.v == 1:
            return init[("r", 1)]
        return init[("tmp", l.v.cls)]
    if l.kind in ("Mem", "MemZero"):
        return init[("mem", l.v.cls)]
    return l.v.poly()


def loc_key(l):
    if l.kind == "Tmp":
        return ("r", l.v) if isinstance(l.v, int) else ("tmp", l.v.cls)
    return ("mem", l.v.cls)


def run_bc_effect(res, ast, east):
    res.rule("BC-EFFECT", "for every arithmetic/copy bytecode form x operand class (register temp 0/1, spilled temp, "
             "cell, cell-and-zero, immediate 0/1/-1/other, all aliasings) the words pushed by `emit` drive the selected "
             "op function to exactly dst := src0 op src1; union fields agree; the continuation gets (cxt, mem, next, r0', r1')",
             floor=1100, what="(form, operand class) pairs")
    res.files.add(OPS)
    try:
        impls = op_impls(ast)
        emits = [f for f in east.functions() if f["name"] == "emit" and "ops" in f["container"]]
        if len(emits) != 1:
            raise Missing("expanded fn emit in bcint::ops")
        emit = emits[0]["node"]
        opfns = {n: ast.fn(OPS, n)["node"] for n in ("add", "add2", "sub", "sub2", "mul", "mul2", "copy")}
    except Missing as m:
        res.missing("BC-EFFECT", m)
        return
    for st, d in impls.items():
        if "SHIFT" not in d:
            res.bad("BC-EFFECT", f"{OPS}|{st}|SHIFT", OPS, f"impl OpRead for {st} has no SHIFT constant")
            return
    pnames = [p["pat"]["name"] for p in emit["sig"]["inputs"] if p["t"] == "Arg"]
    # pre-index the cascade: statements per constructor
    by_ctor = {}
    tail = []
    for st in emit["body"]["stmts"]:
        e = st.get("expr") if st["t"] == "ExprStmt" else None
        if e is not None and e["t"] == "If" and strip_paren(e["cond"])["t"] == "Let":
            pat = strip_paren(e["cond"])["pat"]
            if pat["t"] == "PTupleStruct":
                by_ctor.setdefault(pat["path"]["name"], []).append(st)
                continue
        tail.append(st)
    stats = {"inputs": 0, "streams": set(), "ops": set()}
    for op in ("Copy", "Add", "Sub", "Mul"):
        nsrc = 1 if op == "Copy" else 2
        import itertools
        for kinds in itertools.product(loc_options(True), *([loc_options(False)] * nsrc)):
            nt = sum(1 for k in kinds if k == "Tk")
            nm = sum(1 for k in kinds if k in ("M", "MZ"))
            for tp in set_partitions(nt):
                for mp in set_partitions(nm):
                    instr = build_instr(op, kinds, tp, mp)
                    # exclusions (forms bc.rs cannot produce and whose meaning is ambiguous):
                    locs = instr.locs
                    mz = [l for l in locs[1:] if l.kind == "MemZero"]
                    if any(l.kind in ("Mem",) and locs[0].kind == "Mem" and False for l in mz):
                        continue
                    if any(locs[0].kind == "Mem" and z.v.cls == locs[0].v.cls for z in mz):
                        continue        # zeroing the destination cell: zeroing_move_detection removes dst from `zerod` first
                    if len(mz) == 2 and mz[0].v.cls == mz[1].v.cls:
                        continue        # one pending zeroing per cell
                    if nsrc == 2 and locs[1].kind == "MemZero" and locs[2].kind == "Mem" and locs[1].v.cls == locs[2].v.cls:
                        continue        # the pass visits src1 first, so the zeroing read is never the earlier one
                    stats["inputs"] += 1
                    res.evaluations += 1
                    form = f"{op}({','.join(kinds)})"
                    cls = repr(instr)
                    key = f"{OPS}|emit|{form}|{cls}"
                    w = f"{OPS} (emit / {op.lower()}*)"
                    ei = EmitInterp()
                    env = Env()
                    env.bind(pnames[0], "insts")
                    env.bind(pnames[1], instr)
                    env.bind(pnames[2], True)
                    try:
                        try:
                            ei.exec_block({"stmts": by_ctor.get("Instr::" + op, []) + tail, "t": "Block", "sp": emit["body"]["sp"]}, env)
                            res.bad("BC-EFFECT", key, w, f"{cls}: emit falls off its end without emitting")
                            continue
                        except ReturnEx:
                            pass
                    except Reached as r:
                        res.bad("BC-EFFECT", key, w, f"{cls}: no threaded-code op covers this form ({r.what} reached)")
                        continue
                    except Unanalysable as u:
                        res.bad("BC-EFFECT", key, w, f"{cls}: emit cannot be analysed (fail closed): {u}")
                        continue
                    words = ei.words
                    if not words or words[0][0] != "op" or not isinstance(words[0][1], OpRef):
                        res.bad("BC-EFFECT", key, w, f"{cls}: first word pushed is not an op")
                        continue
                    oref = words[0][1]
                    stats["ops"].add(repr(oref))
                    if oref.name not in opfns:
                        res.bad("BC-EFFECT", key, w, f"{cls}: op `{oref.name}` is not one of the arithmetic op functions")
                        continue
                    fn = opfns[oref.name]
                    gparams = [g["name"] for g in fn["sig"]["generics"]["params"] if g["t"] == "TypeParam"]
                    gp = [g for g in gparams if g != "C"]
                    if len(gp) != len(oref.generics) or any(g not in impls for g in oref.generics):
                        res.bad("BC-EFFECT", key, w, f"{cls}: {oref!r} does not instantiate {gp}")
                        continue
                    generics = dict(zip(gp, oref.generics))
                    init = {("r", 0): Poly.var("r0"), ("r", 1): Poly.var("r1")}
                    for l in instr.locs:
                        if l.kind == "Tmp" and isinstance(l.v, TmpS):
                            init[("tmp", l.v.cls)] = Poly.var(f"t{l.v.cls}")
                        if l.kind in ("Mem", "MemZero"):
                            init[("mem", l.v.cls)] = Poly.var(f"m{l.v.cls}")
                    state = {k: v for k, v in init.items() if k[0] != "r"}
                    oi = OpInterp(ast, impls, words, state, generics)
                    env = Env()
                    ps = [p["pat"]["name"] for p in fn["sig"]["inputs"] if p["t"] == "Arg"]
                    vals = ["cxt", "mem", IpV(0), init[("r", 0)], init[("r", 1)]]
                    for n, v in zip(ps, vals):
                        env.bind(n, v)
                    try:
                        try:
                            out = oi.exec_block(fn["body"], env)
                        except ReturnEx as r:
                            out = r.value
                    except (Unanalysable, Reached) as u:
                        res.bad("BC-EFFECT", key, w, f"{cls} -> {oref!r} {words[1:]}: op cannot be analysed (fail closed): {u}")
                        continue
                    errs = list(oi.problems)
                    if oi.cont is None or out != ("cont",):
                        errs.append("the op does not end in the continuation call")
                    else:
                        c_cxt, c_mem, c_ip, c_r0, c_r1 = oi.cont
                        if c_cxt != "cxt" or c_mem != "mem":
                            errs.append("continuation does not forward cxt/mem")
                        if not isinstance(c_ip, IpV) or c_ip.k != len(words):
                            errs.append(f"continuation ip is {c_ip!r}, the writer pushed {len(words)} words")
                        final = dict(state)
                        final[("r", 0)], final[("r", 1)] = c_r0, c_r1
                        vs = [loc_value(l, init) for l in instr.locs[1:]]
                        exp = vs[0] if op == "Copy" else (vs[0] + vs[1] if op == "Add" else vs[0] - vs[1] if op == "Sub" else vs[0] * vs[1])
                        dk = loc_key(instr.locs[0])
                        expected = dict(init)
                        for z in mz:
                            expected[("mem", z.v.cls)] = Poly.const(0)
                        expected[dk] = exp
                        for k2 in expected:
                            if final.get(k2) != expected[k2]:
                                errs.append(f"{fmt_key(k2)} ends as `{final.get(k2)}`, expected `{expected[k2]}`")
                        unread = set(range(1, len(words))) - set(oi.reads)
                        if unread:
                            errs.append(f"words {sorted(unread)} are pushed but never read by the op")
                    stats["streams"].add((repr(oref), tuple(f for f, _ in words[1:])))
                    if errs:
                        res.bad("BC-EFFECT", key, w, f"{cls} -> {oref!r} words {[(f, repr(v)) for f, v in words[1:]]}: " + "; ".join(errs[:3]))
                    else:
                        res.ok("BC-EFFECT", key, w)
                        if len(res.samples) < 10 and len(words) >= 3 and op != "Copy":
                            res.sample({"rule": "BC-EFFECT", "instr": cls, "op": repr(oref), "words": [(f, repr(v)) for f, v in words[1:]], "verdict": "dst := " + repr(exp)})
    res.notes.append(f"BC-EFFECT: {stats['inputs']} operand classes, {len(stats['ops'])} distinct op instantiations, {len(stats['streams'])} distinct word layouts")
    return stats


def fmt_key(k):
    return {"r": "register r%s", "tmp": "temporary t%s", "mem": "cell [m%s]"}[k[0]] % (k[1],)


# ----------------------------------------------------------------------------- fixed-layout ops

FIXED = {
    # bytecode constructor: (op function(s), roles of the pattern variables in order)
    "Scan": (("scanl", "scanr"), ("cond", "shift")),
    "Mov": (("movl", "movr"), ("shift",)),
    "Inp": (("input",), ("cell",)),
    "Out": (("output",), ("cell",)),
    "BrZ": (("brz",), ("cond", "target")),
    "BrNZ": (("brnz",), ("cond", "target")),
}


def op_params(fn):
    ps = [p["pat"]["name"] if p["pat"]["t"] == "PIdent" else None for p in fn["sig"]["inputs"] if p["t"] == "Arg"]
    return ps if len(ps) == 5 else ["cxt", "mem", "ip", "r0", "r1"]


def slot_reads(ast, fn):
    """{k: (field, local name)} for `let x = (*ip.add(k)).field`"""
    ipn = op_params(fn)[2]
    out = {}
    for l in walk_t(fn["body"], "Local"):
        if l["init"] is None:
            continue
        e = strip_paren(l["init"])
        if e["t"] == "Field":
            b = strip_paren(e["base"])
            if b["t"] == "Unary" and b["op"] == "*":
                x = strip_paren(b["expr"])
                if x["t"] == "MethodCall" and x["method"] == "add" and path_name(x["receiver"]) == ipn and int_lit(x["args"][0]) is not None:
                    out[int_lit(x["args"][0])] = (e["member"], l["pat"].get("name"))
    return out


def role_of(ast, fn, var):
    """How an operand local is used inside an op function."""
    roles = set()
    _, memn, ipn, _, _ = op_params(fn)
    for m in walk_t(fn["body"], "MethodCall"):
        if m["method"] in ("offset", "wrapping_offset") and len(m["args"]) == 1 and path_name(m["args"][0]) == var:
            recv = path_name(m["receiver"])
            if recv == memn:
                roles.add("mem-offset")
            elif recv == ipn:
                roles.add("target")
    par_cmp = []
    for b in walk_t(fn["body"], "Binary"):
        if b["op"] in ("==", "!=") and path_name(strip_paren(b["right"])) == "C::ZERO":
            for m in walk_t(b["left"], "MethodCall"):
                if m["method"] == "offset" and path_name(m["args"][0]) == var:
                    roles.add("cond")
    for a in walk_t(fn["body"], "Assign"):
        if path_name(a["left"]) == memn:
            for m in walk_t(a["right"], "MethodCall"):
                if m["method"] in ("offset", "wrapping_offset") and m["args"] and path_name(m["args"][0]) == var:
                    roles.add("shift")
        l = strip_paren(a["left"])
        if l["t"] == "Unary" and l["op"] == "*":
            for m in walk_t(l, "MethodCall"):
                if m["method"] == "offset" and path_name(m["args"][0]) == var:
                    roles.add("cell")
    for l in walk_t(fn["body"], "Local"):
        if l["init"] is not None:
            e = strip_paren(l["init"])
            if e["t"] == "Unary" and e["op"] == "*":
                for m in walk_t(e, "MethodCall"):
                    if m["method"] == "offset" and path_name(m["args"][0]) == var:
                        roles.add("cell")
    return roles


def run_bc_fixed(res, ast):
    res.rule("BC-FIXED", "fixed-layout ops: every word the op reads was pushed by the matching `emit` arm with the same "
             "union field and the same operand role; the continuation skips exactly the pushed words; direction and "
             "SAFE instantiation are selected by `shift < 0` and `safe`", floor=10, what="(bytecode, op) pairs")
    try:
        emit = ast.fn(OPS, "emit")["node"]
        ms = [m for m in walk_t(emit["body"], "Match") if sum(1 for a_ in m["arms"] if a_["pat"]["t"] in ("PTupleStruct", "PPath") and a_["pat"]["path"]["name"].startswith("Instr::")) >= 5]
        if len(ms) != 1:
            raise Missing("the dispatching `match <instr>` in emit")
        arms = {}
        for a in ms[0]["arms"]:
            p = a["pat"]
            if p["t"] in ("PTupleStruct", "PPath"):
                arms[p["path"]["name"].split("::")[-1]] = a
    except Missing as m:
        res.missing("BC-FIXED", m)
        return
    emit_params = [p_["pat"]["name"] for p_ in emit["sig"]["inputs"] if p_["t"] == "Arg"]

    def emitted(ctor, operands, safe):
        """Words pushed by emit's dispatching match for one abstract fixed-layout instruction."""
        ei = EmitInterp()
        env = Env()
        env.bind(emit_params[0], "insts")
        env.bind(emit_params[1], InstrB(ctor, operands))
        env.bind(emit_params[2], safe)
        ei.eval(ms[0], env)
        return ei.words

    OPERANDS = {"Scan": lambda neg: [OffS(0), SignS(neg)], "Mov": lambda neg: [SignS(neg)], "Inp": lambda neg: [OffS(0)], "Out": lambda neg: [OffS(0)],
                "BrZ": lambda neg: [OffS(0), SignS(neg, "off")], "BrNZ": lambda neg: [OffS(0), SignS(neg, "off")]}
    for ctor, (fns, roles) in FIXED.items():
        if ctor not in arms:
            res.bad("BC-FIXED", f"{OPS}|emit|{ctor}", OPS, f"emit has no arm for Instr::{ctor}")
            continue
        a = arms[ctor]
        pvars = [e.get("name") if e["t"] == "PIdent" else None for e in a["pat"]["elems"]]
        table = {}
        layouts = set()
        sem_err = None
        for neg in (True, False):
            for safe in (True, False):
                try:
                    ws = emitted(ctor, OPERANDS[ctor](neg), safe)
                except (Unanalysable, Reached) as u:
                    sem_err = str(u)
                    continue
                if ws and ws[0][0] == "op" and isinstance(ws[0][1], OpRef):
                    table[(neg, safe)] = ws[0][1]
                    def role_(v_):
                        if isinstance(v_, OffS):
                            return "cell"
                        if isinstance(v_, SignS):
                            return "shift" if v_.name == "shift" else "target-operand"
                        if v_ == 0 and not isinstance(v_, bool):
                            return "target0"
                        return "other:" + repr(v_)
                    layouts.add(tuple((f_, role_(v_)) for f_, v_ in ws[1:]))
        if sem_err or len(layouts) != 1:
            res.bad("BC-FIXED", f"{OPS}|emit|{ctor}|words", where(OPS, a, "emit"),
                    f"Instr::{ctor}: emit arm cannot be evaluated to one word layout (fail closed): {sem_err or sorted(layouts)}")
            continue
        operand_words = list(layouts)[0]       # ((field, repr(value)), ...)
        opnames = sorted({o.name for o in table.values()})
        # roles of the pushed values: the abstract operands print as m0 (cell), shift<0 / shift>=0 (shift), off.. (target)
        operand_pushes = list(operand_words)
        for fname in fns:
            key = f"{OPS}|{ctor}|{fname}"
            try:
                fn = ast.fn(OPS, fname)["node"]
            except Missing as m:
                res.missing("BC-FIXED", m)
                continue
            w = where(OPS, fn, fname)
            errs = []
            if fname not in opnames:
                errs.append(f"emit arm Instr::{ctor} never pushes `{fname}` (pushes {opnames})")
            reads = slot_reads(ast, fn)
            if sorted(reads) != list(range(1, len(operand_pushes) + 1)):
                errs.append(f"op reads words {sorted(reads)}, the writer pushes {len(operand_pushes)} operand words")
            else:
                for k in sorted(reads):
                    fld, local = reads[k]
                    wf, wrole = operand_pushes[k - 1]
                    if fld != wf:
                        errs.append(f"word {k}: written as `{wf}`, read as `{fld}`")
                    want_role = roles[k - 1]
                    got = role_of(ast, fn, local)
                    if want_role == "target":
                        if wrole != "target0":
                            errs.append(f"word {k}: branch offset placeholder is not 0")
                        if "target" not in got:
                            errs.append(f"word {k}: not used as the ip offset of the taken branch")
                    else:
                        want_w = {"cond": "cell", "cell": "cell", "shift": "shift"}[want_role]
                        if wrole != want_w:
                            errs.append(f"word {k}: writer pushes the instruction's {wrole}, the reader uses this word as the {want_role}")
                        need = {"cond": "cond", "shift": "shift", "cell": "cell"}[want_role]
                        if need not in got:
                            errs.append(f"word {k} (`{local}`): used as {sorted(got)}, its role in Instr::{ctor} is {want_role}")
            # continuation
            conts = [c for c in walk_t(fn["body"], "Call") if path_name(c["func"]) == "noop"]
            n = len(operand_pushes) + 1
            fall = [c for c in conts if ast.src1(OPS, c["args"][2]).replace(" ", "") == f"{op_params(fn)[2]}.add({n})"]
            if not fall:
                errs.append(f"no continuation at ip.add({n}) (the writer pushes {n} words)")
            res.check(not errs, "BC-FIXED", key, w, f"Instr::{ctor} / {fname}: " + "; ".join(errs))
        # adjust_branch patches the word the branch reads as target
        if ctor in ("BrZ", "BrNZ"):
            try:
                ab = ast.fn(OPS, "adjust_branch")["node"]
                asg = [x for x in walk_t(ab["body"], "Assign")]
                import pm
                ok = len(asg) == 1 and pm.match_expr(asg[0]["left"], "__v_b[2].off") is not None
                res.check(ok, "BC-FIXED", f"{OPS}|adjust_branch|{ctor}", where(OPS, ab, "adjust_branch"),
                          "adjust_branch must patch word 2 (`off`) - the word brz/brnz read as their target")
            except Missing as m:
                res.missing("BC-FIXED", m)
    # direction / SAFE selection in emit (PROBE-DIR writer half, UNSAFE-TWIN selection)
    for ctor, (l, r) in (("Scan", ("scanl", "scanr")), ("Mov", ("movl", "movr"))):
        a = arms.get(ctor)
        if a is None:
            continue
        sel = {}
        for neg in (True, False):
            for safe in (True, False):
                try:
                    ws = emitted(ctor, OPERANDS[ctor](neg), safe)
                    sel[(neg, safe)] = f"{ws[0][1].name}::<_,{','.join(ws[0][1].generics)}>" if ws and isinstance(ws[0][1], OpRef) else "?"
                except (Unanalysable, Reached) as u:
                    sel[(neg, safe)] = f"unanalysable: {u}"
        want = {(True, True): f"{l}::<_,true>", (True, False): f"{l}::<_,false>", (False, True): f"{r}::<_,true>", (False, False): f"{r}::<_,false>"}
        res.check(sel == want, "BC-FIXED", f"{OPS}|emit|{ctor}|selection", where(OPS, a, "emit"),
                  f"Instr::{ctor}: op selection by (shift < 0, safe) is {sel}, expected {want}")
    # limit / ret helpers
    for helper, fname, nwords in (("emit_limit", "limit", 2), ("emit_return", "ret", 1)):
        try:
            h = ast.fn(OPS, helper)["node"]
            pushes = [m for m in walk_t(h["body"], "MethodCall") if m["method"] == "push"]
            flds = [(m["args"][0]["fields"][0]["member"], ast.src1(OPS, m["args"][0]["fields"][0]["expr"])) for m in pushes]
            fn = ast.fn(OPS, fname)["node"]
            reads = slot_reads(ast, fn)
            ok = len(flds) == nwords and flds[0] == ("op", fname) and all(reads.get(k, (None,))[0] == flds[k][0] for k in range(1, nwords)) and sorted(reads) == list(range(1, nwords))
            if fname == "limit":
                hp = [p_["pat"]["name"] for p_ in h["sig"]["inputs"] if p_["t"] == "Arg"]
                ok = ok and flds[1] == ("idx", hp[1] if len(hp) == 2 else "cost") and all(ast.src1(OPS, c["args"][2]).replace(" ", "") == f"{op_params(fn)[2]}.add(2)" for c in walk_t(fn["body"], "Call") if path_name(c["func"]) == "noop")
            res.check(ok, "BC-FIXED", f"{OPS}|{helper}|{fname}", where(OPS, h, helper),
                      f"{helper} pushes {flds}; `{fname}` reads {reads}: writer and reader disagree")
        except Missing as m:
            res.missing("BC-FIXED", m)


def selection_table(ast, arm, safe_name="safe"):
    """(shift<0, safe) -> op pushed, by walking the if/else tree of an emit arm."""
    out = {}
    shift_name = arm["pat"]["elems"][-1].get("name") if arm["pat"]["t"] == "PTupleStruct" else "shift"

    def walk_if(e, neg, safe):
        e = strip_paren(e)
        if e["t"] == "BlockExpr":
            sts = e["block"]["stmts"]
            for s in sts:
                if s["t"] == "ExprStmt":
                    walk_if(s["expr"], neg, safe)
            return
        if e["t"] == "If":
            c = ast.src1(OPS, e["cond"]).replace(" ", "")
            if c == f"{shift_name}<0":
                walk_if({"t": "BlockExpr", "block": e["then"]}, True, safe)
                if e["else"] is not None:
                    walk_if(e["else"], False, safe)
                return
            if c == safe_name:
                walk_if({"t": "BlockExpr", "block": e["then"]}, neg, True)
                if e["else"] is not None:
                    walk_if(e["else"], neg, False)
                return
            out[("?", c)] = "unknown condition"
            return
        if e["t"] == "MethodCall" and e["method"] == "push" and e["args"][0]["t"] == "StructExpr":
            f = e["args"][0]["fields"][0]
            if f["member"] == "op":
                out[(neg, safe)] = ast.src1(OPS, f["expr"]).replace(" ", "")
    walk_if(arm["body"], None, None)
    return out


# ----------------------------------------------------------------------------- BC-THREAD

def run_bc_thread(res, ast):
    res.rule("BC-THREAD", "every threaded-code op ends each path in `noop(cxt, mem, ip', r0, r1)` (its own parameters, in "
             "order) or a null/returned ip; release `noop` tail-calls the next op with all five unchanged; debug `noop` and "
             "the exhausted `limit` path spill exactly what `enter_ops` reloads", floor=20, what="ops and state hand-overs")
    res.files.add(OPS)
    opty = None
    fns = [f for f in ast.find_fns(OPS) if f["node"]["sig"]["unsafe"] and f["node"].get("body")]
    opfns = []
    for f in fns:
        ps = [p for p in f["node"]["sig"]["inputs"] if p["t"] == "Arg"]
        out = f["node"]["sig"]["output"]
        if len(ps) == 5 and out is not None and out["s"].replace(" ", "") == "*constOpCode<C>":
            opfns.append(f)
    for f in opfns:
        fn = f["node"]
        names = [p["pat"]["name"] if p["pat"]["t"] == "PIdent" else None for p in fn["sig"]["inputs"] if p["t"] == "Arg"]
        cfg = ",".join(f["cfg"])
        key = f"{OPS}|{f['name']}" + (f"|{cfg}" if cfg else "")
        w = where(OPS, fn, f["name"])
        if f["name"] == "noop":
            if "not(debug_assertions)" in cfg.replace(" ", ""):
                st = fn["body"]["stmts"]
                e = st[0]["expr"] if len(st) == 1 and st[0]["t"] == "ExprStmt" else None
                ok = False
                if e is not None and e["t"] == "Call":
                    callee = ast.src1(OPS, e["func"]).replace(" ", "")
                    args = [path_name(a) for a in e["args"]]
                    ok = callee == f"((*{names[2]}).op)" and args == names
                res.check(ok, "BC-THREAD", key, w, "release-mode noop must be `((*ip).op)(cxt, mem, ip, r0, r1)` with the five parameters unchanged and in order")
            else:
                import pm
                env_ = {"__v_cxt": names[0], "__v_mem": names[1], "__v_ip": names[2], "__v_r0": names[3], "__v_r1": names[4]}
                st_ = fn["body"]["stmts"]
                spills = ("temps_ptr(__v_cxt).add(0).write(__v_r0)", "temps_ptr(__v_cxt).add(1).write(__v_r1)", "(*__v_cxt).context.memory.set_current_ptr(__v_mem)")
                got = []
                for s_ in st_[:-1]:
                    hit = [k_ for k_, pt in enumerate(spills) if s_["t"] == "ExprStmt" and pm.match_expr(s_["expr"], pt, env_) is not None]
                    got.append(hit[0] if hit else None)
                ok = sorted(x for x in got if x is not None) == [0, 1, 2] and None not in got and bool(st_) and st_[-1]["t"] == "ExprStmt" \
                    and not st_[-1]["semi"] and path_name(strip_paren(st_[-1]["expr"])) == names[2]
                res.check(ok, "BC-THREAD", key, w, "debug-mode noop must spill r0 -> temps[0], r1 -> temps[1], mem -> memory.set_current_ptr and return ip")
            continue
        if any(n is None or n.startswith("_") for n in names):
            # ret: ignores its parameters and returns null
            txt = ast.src1(OPS, fn["body"]).replace(" ", "")
            res.check(txt == "{ptr::null()}", "BC-THREAD", key, w, f"{f['name']}: an op that ignores its parameters must return the null ip")
            continue
        conts = [c for c in walk_t(fn["body"], "Call") if path_name(c["func"]) == "noop"]
        errs = []
        for c in conts:
            args = c["args"]
            if len(args) != 5:
                errs.append("continuation with the wrong arity")
                continue
            a = [path_name(strip_paren(x)) for x in args]
            if a[0] != names[0] or a[1] != names[1] or a[3] != names[3] or a[4] != names[4]:
                errs.append(f"continuation passes ({', '.join(ast.src1(OPS, x) for x in args)}), expected ({names[0]}, {names[1]}, <next ip>, {names[3]}, {names[4]})")
            ipx = strip_paren(args[2])
            if not (ipx["t"] == "MethodCall" and ipx["method"] in ("add", "offset") and path_name(ipx["receiver"]) == names[2]):
                errs.append(f"next ip `{ast.src1(OPS, args[2])}` is not derived from this op's ip")
        if not conts:
            errs.append("no continuation call")
        # every function-level exit is a continuation, a null ip, or (limit) the spilled return
        res.check(not errs, "BC-THREAD", key, w, f"{f['name']}: " + "; ".join(errs[:2]))
    if len(opfns) < 19:
        res.bad("BC-THREAD", f"{OPS}|op-count", OPS, f"only {len(opfns)} functions of the Op signature found")
    # limit's exhausted path spills like debug noop; enter_ops reloads
    try:
        import pm
        lim = ast.fn(OPS, "limit")["node"]
        lp = op_params(lim)
        envl = {"__v_cxt": lp[0], "__v_mem": lp[1], "__v_r0": lp[3], "__v_r1": lp[4]}
        # the branch that does not continue with noop(..) (whichever side of the test it is written on)
        hit = [b_ for i_ in walk_t(pm.inline_helpers(ast, OPS, lim["body"]), "If") for b_ in walk_t(i_, "Block")
               if not any(path_name(strip_paren(c_["func"])) == "noop" for c_ in walk_t(b_, "Call")) and pm.match_stmts(b_["stmts"],
               "__rest; temps_ptr(__v_cxt).add(0).write(__v_r0); temps_ptr(__v_cxt).add(1).write(__v_r1); (*__v_cxt).context.memory.set_current_ptr(__v_mem); __rest;", envl)]
        res.check(bool(hit), "BC-THREAD", f"{OPS}|limit|spill", where(OPS, lim, "limit"), "the exhausted path of `limit` must spill r0, r1 and mem before returning to the trampoline")
        eo = ast.fn(OPS, "enter_ops")["node"]
        ep = [p_["pat"]["name"] for p_ in eo["sig"]["inputs"] if p_["t"] == "Arg"]
        be = pm.match_stmts(eo["body"]["stmts"],
                            "(*__v_cxt).context.memory.make_accessible((*__v_cxt).min_accessed, (*__v_cxt).max_accessed + 1); let __v_r0 = *temps_ptr(__v_cxt).add(0); "
                            "let __v_r1 = *temps_ptr(__v_cxt).add(1); let __v_mem = (*__v_cxt).context.memory.current_ptr(); ((*__v_ip).op)(__v_cxt, __v_mem, __v_ip, __v_r0, __v_r1)",
                            {"__v_cxt": ep[0], "__v_ip": ep[1]} if len(ep) == 2 else {})
        res.check(be is not None, "BC-THREAD", f"{OPS}|enter_ops|reload", where(OPS, eo, "enter_ops"),
                  "enter_ops must make the window accessible, then reload r0 <- temps[0], r1 <- temps[1], mem <- memory.current_ptr() and enter ((*ip).op)(cxt, mem, ip, r0, r1)")
        res.check(be is not None, "BC-THREAD", f"{OPS}|enter_ops|order", where(OPS, eo, "enter_ops"),
                  "enter_ops must take the tape pointer after make_accessible (the buffer may move)")
    except Missing as m:
        res.missing("BC-THREAD", m)
    run_layout_pair(res, ast, "BC-THREAD")


def run_layout_pair(res, ast, rule):
    """build_context / free_context use the identical layout with room for the two spill slots."""
    try:
        bc_ = ast.fn(BCMOD, "build_context")["node"]
        fc = ast.fn(BCMOD, "free_context")["node"]

        import pm

        def layout(fn):
            """the arguments of Layout::from_size_align with side-effect-free locals written out"""
            lets = {l["pat"]["name"]: l["init"] for l in walk_t(fn["body"], "Local") if l["pat"]["t"] == "PIdent" and not l["pat"]["mut"] and l.get("init") is not None and pm._loadish(l["init"])}
            for c in walk_t(fn["body"], "Call"):
                if path_name(c["func"]) == "Layout::from_size_align":
                    return [pm._subst(a_, {k_: {"t": "Paren", "sp": v_["sp"], "expr": v_} for k_, v_ in lets.items()}) for a_ in c["args"]]
            return None
        la_, lb_ = layout(bc_), layout(fc)
        same = la_ is not None and lb_ is not None and len(la_) == len(lb_) and all(pm._eq(x_, y_) for x_, y_ in zip(la_, lb_))
        room = la_ is not None and any(m_["method"] == "max" and len(m_["args"]) == 1 and (int_lit(m_["args"][0]) or 0) >= 2 for m_ in walk_t(la_, "MethodCall"))
        la = lb = "same" if same and room else None
        res.check(same and room, rule, f"{BCMOD}|context-layout",
                  where(BCMOD, bc_, "build_context/free_context"),
                  "build_context and free_context must use the identical layout expression with room for the two spill slots (temps.max(2))")
    except Missing as m:
        res.missing(rule, m)


def run_bc_simul(res, ast):
    """emit_block on a block holding one multi-assignment `Calc { calcs: [(1, A), (2, B)] }` (lib/receval.py): the evaluation of a right-hand side is a
    scripted event (get_expr_value, or `expr.codegen(self, ..)` when the helper is written out), a store is whatever binds GvnExpr::Mem(var) in the
    value table / pushes Copy(Mem(var), ..) - wherever that code lives (mem_write, or inlined).  Every evaluation must precede the first store,
    and each cell must be bound to the value of its own right-hand side."""
    res.rule("BC-SIMUL", "bc::CodeGen::emit_block, ir::Instr::Calc: every right-hand side of a multi-assignment is evaluated before the first cell is "
             "stored, and each cell receives the value of its own expression (simultaneous assignment); decided by evaluating the arm with scripted "
             "expression evaluation and logged stores", floor=1, what="calc arms")
    res.files.add(BC)
    import receval, itereval
    from receval import Rec, Variant, MapV, LogList, LogMap
    from rusteval import Env as _Env, ReturnEx as _Ret, Unanalysable as _Un, Reached as _Re, NONE as _NONE, Res as _Res
    try:
        f = ast.fn(BC, "emit_block")["node"]
        arm = f
        log = []
        mk = lambda c: Rec(created=c, first_use=_NONE, last_use=_NONE, num_uses=0)

        class ExprObj:
            def __init__(self, name):
                self.name = name

            def __repr__(self):
                return self.name
        me = Rec(values=LogMap({}, log, "values"), exprs=[], outer_accessed=[], insts=LogList([], log, "insts"), ranges=[], current_start=0, writes=MapV())
        vals = {}

        def evaluate(it, expr, var=None):
            n = len(me["ranges"])
            me["ranges"].append(mk(len(me["insts"])))
            me["exprs"].append(itereval.Ctor("GvnExpr::Imm", [n]))
            vals[expr.name] = n
            log.append(("eval", expr.name))
            return n

        class SimInterp(receval.RecInterp):
            def method(self, recv, name, targs, args, node):
                if isinstance(recv, ExprObj) and name == "codegen":
                    return _Res(True, evaluate(self, recv))
                return super().method(recv, name, targs, args, node)
        it = SimInterp(ast, BC, me, scripted={"get_expr_value": evaluate})
        A, B = ExprObj("A"), ExprObj("B")
        from rusteval import Tup as _Tup
        calc = Variant("ir::Instr::Calc", {"calcs": [_Tup([1, A]), _Tup([2, B])]})
        ps = [p["pat"]["name"] for p in f["sig"]["inputs"] if p["t"] == "Arg" and p["pat"]["t"] == "PIdent"]
        env = _Env()
        probs = []
        try:
            if len(ps) != 3:
                raise _Un("emit_block(&mut self, block, analysis, fuse): unexpected parameters")
            for n_, v_ in zip(ps, [Rec(insts=[calc], shift=0), Rec(has_shift=False, writes=[1, 2], sub_anal=[], min_accessed=0, max_accessed=3), True]):
                env.bind(n_, v_)
            try:
                it.exec_block(f["body"], env)
            except _Ret:
                pass
        except (_Un, _Re, KeyError, TypeError, IndexError, AttributeError) as u_:
            probs.append(f"cannot be analysed (fail closed): {u_}")
        res.evaluations += 1
        if not probs:
            evs = [i for i, e_ in enumerate(log) if e_[0] == "eval"]
            is_mem = lambda k: isinstance(k, itereval.Ctor) and k.name.endswith("::Mem")
            binds = [(i, e_[1].fields[0], e_[2]) for i, e_ in enumerate(log) if e_[0] == "values" and is_mem(e_[1])]
            copies = [(i, e_[1].fields[0].fields[0]) for i, e_ in enumerate(log) if e_[0] == "insts" and isinstance(e_[1], itereval.Ctor) and e_[1].name.endswith("::Copy")
                      and e_[1].fields and is_mem(e_[1].fields[0])]
            stores = sorted([i for i, _, _ in binds] + [i for i, _ in copies])
            if len(evs) != 2:
                probs.append(f"{len(evs)} right-hand sides are evaluated for a two-cell assignment")
            elif not stores:
                probs.append("no cell is stored")
            elif max(evs) > min(stores):
                probs.append("a cell is stored before every right-hand side has been evaluated: the later expression reads the new value")
            else:
                got = {v_: n_ for _, v_, n_ in binds}
                want = {1: vals.get("A"), 2: vals.get("B")}
                if got != want:
                    probs.append(f"cells are bound to {got}, the right-hand sides evaluated to {want}")
                if sorted(v_ for _, v_ in copies) != [1, 2]:
                    probs.append(f"stores are emitted for cells {sorted(v_ for _, v_ in copies)}, expected [1, 2]")
        res.check(not probs, "BC-SIMUL", f"{BC}|emit_block|Calc", where(BC, arm, "emit_block"),
                  "a multi-assignment must evaluate every expression before the first store and give each cell its own value: " + "; ".join(probs[:2]))
    except Missing as m:
        res.missing("BC-SIMUL", m)
