"""C16: the command line is pure plumbing - flag table, defaults, dispatch tables, exit code.
All rules are structural checks of src/bin/hpbf.rs against small correspondence tables whose
oracle is the README / help text."""
from common import *
from iolim import parents

HPBF = "src/bin/hpbf.rs"

KIND_FLAGS = {  # README usage text is the oracle
    "--print-ir": "PrintIr", "--print-bc": "PrintBc", "--print-jit-bc": "PrintBc2", "--print-jit-mc": "PrintMc",
    "--print-llvm": "PrintLlvm", "--inplace": "Inplace", "--ir-int": "IrInt", "--bc-int": "BcInt",
    "--base-jit": "BaseJit", "--llvm-jit": "LlvmJit",
}
EXECUTORS = {"Inplace": "InplaceInterpreter", "IrInt": "IrInterpreter", "BcInt": "BcInterpreter",
             "BaseJit": "BaseJitCompiler", "LlvmJit": "LlvmJitCompiler"}
PRINTERS = ("PrintIr", "PrintBc", "PrintBc2", "PrintMc", "PrintLlvm")
X86_CFG = "cfg(all(not(miri), target_arch = \"x86_64\", target_family = \"unix\"))"


def assign_of(e):
    """('var', value expr) for `var = value`."""
    e = strip_paren(e)
    if e["t"] == "BlockExpr" and len(e["block"]["stmts"]) == 1 and e["block"]["stmts"][0]["t"] == "ExprStmt":
        e = strip_paren(e["block"]["stmts"][0]["expr"])
    if e["t"] == "Assign" and path_name(e["left"]):
        return path_name(e["left"]), e["right"]
    return None


def run_exec_traces(res, ast, ec):
    import trace as tr
    node = ec["node"]
    ps = [p_["pat"]["name"] for p_ in node["sig"]["inputs"] if p_["t"] == "Arg" and p_["pat"]["t"] == "PIdent"]
    w = where(HPBF, node, "execute_code")
    if len(ps) != 5:
        res.bad("CLI-KIND", f"{HPBF}|execute_code|signature", w, "execute_code does not have the parameters (code, kind, opt, limit, safe)")
        res.bad("CLI-MODE", f"{HPBF}|execute_code|mode-chain", w, "execute_code does not have the parameters (code, kind, opt, limit, safe)")
        return
    try:
        en = ast.item(HPBF, "Enum", "ExecutorKind")
    except Missing as m:
        res.missing("CLI-KIND", m)
        return
    CODE, OPT, LIM = tr.Sym("param:code"), tr.Sym("param:opt"), tr.Sym("payload:limit")
    modes = (("limited", tr.Some(LIM), True), ("limited-static", tr.Some(LIM), False), ("checked", tr.NONE, True), ("static", tr.NONE, False))
    mode_ok = {m_[0]: True for m_ in modes}
    mode_why = {}
    for v in en["variants"]:
        vn = v["name"]
        key = f"{HPBF}|execute_code|kind|{vn}"
        if vn not in EXECUTORS and vn not in PRINTERS:
            res.bad("CLI-KIND", key, w, f"ExecutorKind::{vn} is not in the correspondence table (fail closed)")
            continue
        problems = []
        for mname, lim, safe in modes:
            for failing in ((), ("create", "parse")):
                it = tr.TraceInterp(ast, HPBF, fallible=("create", "parse", "print_llvm_ir"), fail=failing)
                env = tr.Env()
                for n_, v_ in zip(ps, (CODE, tr.Sym("path:ExecutorKind::" + vn), OPT, lim, safe)):
                    env.bind(n_, v_)
                res.evaluations += 1
                try:
                    try:
                        ret = it.exec_block(node["body"], env)
                    except tr.ReturnEx as r_:
                        ret = r_.value
                except (tr.Unanalysable, tr.Reached, tr.ExitEx, KeyError, TypeError, AttributeError) as u_:
                    problems.append(f"{mname}: cannot be analysed (fail closed): {type(u_).__name__} {u_}")
                    continue
                ev = it.events
                runs = [e_ for e_ in ev if e_[0] == "method" and e_[1].startswith("execute")]
                srcs = [e_ for e_ in ev if e_[0] == "call" and e_[1].split("::")[-1] in ("create", "parse")]
                if failing:
                    # a parse error must come back to main and nothing may run
                    if not (isinstance(ret, tr.Res) and not ret.ok and isinstance(ret.v, tr.Sym) and ret.v.label.startswith("error:")):
                        problems.append(f"{mname}: a parse/create error is not returned to main (returns {ret!r})")
                    if runs:
                        problems.append(f"{mname}: something is executed although parsing failed")
                    continue
                if not (isinstance(ret, tr.Res) and ret.ok):
                    problems.append(f"{mname}: returns {ret!r} on success")
                if not srcs or any(not (list(e_[2]) in ([CODE], [CODE, OPT])) for e_ in srcs):
                    problems.append(f"{mname}: the program is not built from (code[, opt]): {[(e_[1], e_[2]) for e_ in srcs]}")
                if vn in EXECUTORS:
                    want = EXECUTORS[vn] + "::create"
                    if [e_[1] for e_ in srcs] != [want] or list(srcs[0][2]) != [CODE, OPT]:
                        problems.append(f"{mname}: must build {want}(code, opt); builds {[e_[1] for e_ in srcs]}")
                        continue
                    obj = tr.Sym("call:" + want, (CODE, OPT))
                    ctxs = [e_ for e_ in ev if e_[0] == "call" and e_[1] == "Context::with_stdio"]
                    cx = tr.Sym("call:Context::with_stdio", ())
                    if len(ctxs) != 1:
                        problems.append(f"{mname}: the context is not Context::with_stdio()")
                    if any(e_[2] != obj for e_ in runs) or any(list(e_[3]) != [cx] for e_ in runs):
                        problems.append(f"{mname}: the executed object/context is not the one just built: {runs}")
                    budget = [e_ for e_ in ev if e_[0] == "assign" and e_[1] == "budget"]
                    pre = [e_ for e_ in ev if e_[0] == "method" and e_[1] == "make_accessible"]
                    seq = [e_[1] if e_[0] == "method" else "budget=" for e_ in ev if e_ in runs or e_ in budget or e_ in pre]
                    good = None
                    if mname.startswith("limited"):
                        good = seq == ["budget=", "execute_limited"] and budget[0][2] == cx and budget[0][3] == LIM
                        if not good:
                            mode_ok["limited"] = False
                            mode_why["limited"] = f"{vn}: with --limit the run must be `cxt.budget = limit; execute_limited(cxt)`; found {seq}"
                    elif mname == "checked":
                        good = seq == ["execute"]
                        if not good:
                            mode_ok["checked"] = False
                            mode_why["checked"] = f"{vn}: the default run must be the checked `execute(cxt)` and nothing else; found {seq}"
                    else:
                        good = seq == ["make_accessible", "execute_unsafe"]
                        if good:
                            lo, hi = pre[0][3] if len(pre[0][3]) == 2 else (None, None)
                            good = isinstance(lo, int) and isinstance(hi, int) and lo == -hi and hi >= 1 << 20 and pre[0][2] == tr.Sym("f:memory", (cx,))
                        if not good:
                            mode_ok["static"] = False
                            mode_why["static"] = f"{vn}: --static must pre-allocate a large symmetric window on the context's tape and then call execute_unsafe; found {seq} {pre[0][3] if pre else ''}"
                else:
                    if runs:
                        problems.append(f"{mname}: a print option executes the program ({[e_[1] for e_ in runs]})")
                    outs = [e_ for e_ in ev if (e_[0] == "print" and e_[1] in ("println", "print")) or (e_[0] == "method" and e_[1] in ("write_all", "write"))]
                    shown = [x for e_ in outs for x in (e_[2] if e_[0] == "print" else e_[3])]
                    if not outs or not any(tr.derives_from(x, CODE) for x in shown):
                        problems.append(f"{mname}: nothing derived from the code is printed")
                    if any(e_[0] == "method" and e_[1] in ("input",) for e_ in ev):
                        problems.append(f"{mname}: input is read")
        res.check(not problems, "CLI-KIND", key, w, f"ExecutorKind::{vn}: " + "; ".join(sorted(set(problems))[:4]))
    for mname in ("limited", "checked", "static"):
        res.check(mode_ok[mname] and mode_ok.get(mname + "-static", True), "CLI-MODE", f"{HPBF}|execute_code|mode|{mname}", w,
                  mode_why.get(mname) or mode_why.get(mname + "-static") or "")


def run_cli(res, ast):
    res.files.add(HPBF)
    res.rule("CLI-FLAGS", "every flag literal assigns the configuration variable the usage text documents "
             "(-iN -> bits = N, -Ok -> opt = k, back-end/print flags -> the matching ExecutorKind, --static -> safe = false, "
             "--limit / -f consume the next argument); anything else is appended to the code", floor=25, what="flag arms")
    res.rule("CLI-DEFAULTS", "defaults: 8 bit, level 2, checked mode, no limit, baseline JIT on x86-64 unix else bytecode interpreter",
             floor=5, what="defaults")
    res.rule("CLI-WIDTH", "bits = N dispatches to execute_code::<uN> with identical arguments", floor=4, what="widths")
    res.rule("CLI-KIND", "each executing ExecutorKind constructs the same-named executor from (code, opt); each print "
             "option evaluates to None so nothing is executed and stdin is never read", floor=8, what="kinds")
    res.rule("CLI-CONCAT", "file contents and bare arguments are appended, in argument order, to one code string that is "
             "what gets executed", floor=3, what="concat obligations")
    res.rule("CLI-MODE", "limit -> budget := limit and execute_limited; else checked execute; --static -> symmetric "
             "pre-allocation then execute_unsafe", floor=3, what="mode obligations")
    res.rule("CLI-EXIT", "every diagnosed error goes to stderr, sets has_error, suppresses execution, and the process "
             "exits 1 iff has_error else 0", floor=6, what="exit obligations")
    try:
        main = ast.fn(HPBF, "main")
        ec = ast.fn(HPBF, "execute_code")
        # the error reporter, by role: the free function taking one `Error` by value
        cands_ = [f_ for f_ in ast.find_fns(HPBF) if not f_["container"] and len(f_["node"]["sig"]["inputs"]) == 1 and f_["node"]["sig"]["inputs"][0]["t"] == "Arg"
                  and f_["node"]["sig"]["inputs"][0]["ty"]["s"].replace(" ", "") in ("Error", "hpbf::Error")]
        if len(cands_) != 1:
            raise Missing(f"{HPBF}: the error-reporting function `fn(Error)`: found {[c_['name'] for c_ in cands_]}")
        pe = cands_[0]
    except Missing as m:
        for r in ("CLI-FLAGS", "CLI-DEFAULTS", "CLI-WIDTH", "CLI-KIND", "CLI-CONCAT", "CLI-MODE", "CLI-EXIT"):
            res.missing(r, m)
        return
    mb = main["node"]["body"]
    w0 = where(HPBF, main["node"], "main")
    import pm
    # role -> variable name, discovered from how the variables are used (no name is assumed)
    N = {"bits": "bits", "code": "code", "kind": "kind", "opt": "opt", "limit": "limit", "safe": "safe", "has_error": "has_error",
         "next_is_file": "next_is_file", "next_is_limit": "next_is_limit", "print_help": "print_help"}
    for m_ in walk_t(mb, "Match"):
        lits_ = [a_ for a_ in m_["arms"] if a_["pat"]["t"] == "PLit" and a_["pat"]["lit"].get("kind") == "int"]
        if len(lits_) >= 4 and path_name(strip_paren(m_["expr"])):
            b_ = pm.match_expr(strip_paren(lits_[0]["body"]), "execute_code::<u8>(&__v_code, __v_kind, __v_opt, __v_limit, __v_safe)") or \
                pm.match_expr(strip_paren(lits_[0]["body"]), "execute_code::<__v_t>(&__v_code, __v_kind, __v_opt, __v_limit, __v_safe)")
            if b_:
                N.update(bits=path_name(strip_paren(m_["expr"])), code=b_["__v_code"], kind=b_["__v_kind"], opt=b_["__v_opt"], limit=b_["__v_limit"], safe=b_["__v_safe"])
    last_ = mb["stmts"][-1]
    b_ = pm.match_expr(last_["expr"], "if __v_e { exit(1) } else { exit(0) }") if last_["t"] == "ExprStmt" else None
    if b_:
        N["has_error"] = b_["__v_e"]
    for i_ in walk_t(mb, "If"):
        c_ = path_name(strip_paren(i_["cond"]))
        if c_ and any(path_name(x["func"]) == "File::open" for x in walk_t(i_["then"], "Call")):
            N["next_is_file"] = c_
        if c_ and any(x["method"] == "parse" for x in walk_t(i_["then"], "MethodCall")) and not any(path_name(x["func"]) == "File::open" for x in walk_t(i_["then"], "Call")):
            N["next_is_limit"] = c_
    # ------------------------------------------------------------------ the flag match
    fm = [m for m in walk_t(mb, "Match") if pm.match_expr(m["expr"], "__v_a.as_str()")]
    if len(fm) != 1:
        res.bad("CLI-FLAGS", f"{HPBF}|main|flag-match", w0, f"expected exactly one `match arg.as_str()`, found {len(fm)}")
    else:
        seen = {}
        for a in fm[0]["arms"]:
            pats = a["pat"]["cases"] if a["pat"]["t"] == "POr" else [a["pat"]]
            w = where(HPBF, a, "main")
            if a["pat"]["t"] == "PWild":
                b = strip_paren(a["body"])
                argn = pm.match_expr(fm[0]["expr"], "__v_a.as_str()")["__v_a"]
                ok = pm.match_expr(b, f"{N['code']}.push_str(&{argn})") is not None
                res.check(ok, "CLI-FLAGS", f"{HPBF}|main|flag|_", w, f"the default arm must append the argument to the code (`code.push_str(&arg)`); found `{ast.src1(HPBF, a['body'])}`")
                continue
            lits = [p["lit"]["value"] for p in pats if p["t"] == "PLit" and p["lit"]["kind"] == "str"]
            if len(lits) != len(pats):
                res.bad("CLI-FLAGS", f"{HPBF}|main|flag|?", w, "flag arm with a non-literal pattern (fail closed)")
                continue
            asg = assign_of(a["body"])
            for lit in lits:
                key = f"{HPBF}|main|flag|{lit}"
                seen[lit] = a
                exp = None
                if lit in KIND_FLAGS:
                    exp = (N["kind"], "ExecutorKind::" + KIND_FLAGS[lit])
                elif lit.startswith("-O") and lit[2:].isdigit():
                    exp = (N["opt"], lit[2:])
                elif lit.startswith("-i") and lit[2:].isdigit():
                    exp = (N["bits"], lit[2:])
                elif lit == "--static":
                    exp = (N["safe"], "false")
                elif lit == "--limit":
                    exp = (N["next_is_limit"], "true")
                elif lit in ("-f", "-file", "--file"):
                    exp = (N["next_is_file"], "true")
                elif lit in ("-h", "-help", "--help"):
                    exp = (asg[0] if asg else "print_help", "true")
                elif lit == "--time":
                    res.ok("CLI-FLAGS", key, w, "timing flag (not part of the property)", nontrivial=False)
                    continue
                else:
                    res.bad("CLI-FLAGS", key, w, f"flag `{lit}` is not in the usage table (README): its effect is not decided (fail closed)")
                    continue
                got = (asg[0], ast.src1(HPBF, asg[1]).replace(" ", "")) if asg else None
                res.check(got == exp, "CLI-FLAGS", key, w, f"flag `{lit}` does `{ast.src1(HPBF, a['body'])}`, the usage text says {exp[0]} = {exp[1]}")
        for lit in list(KIND_FLAGS) + ["-O0", "-O1", "-O2", "-O3", "-O4", "-O5", "-i8", "-i16", "-i32", "-i64", "--static", "--limit", "-f", "--file"]:
            if lit not in seen:
                res.bad("CLI-FLAGS", f"{HPBF}|main|flag|{lit}", w0, f"documented flag `{lit}` has no arm")
        # a flag arm is only reached when the argument is not consumed as file/limit: structure of the chain
        par = parents(main["node"])
        chain_ok = False
        cur = fm[0]
        # climb to the `if next_is_file {..} else if next_is_limit {..} else { match }`
        conds = []
        while id(cur) in par:
            pn, k = par[id(cur)]
            if pn["t"] == "If" and k == "else":
                conds.append(path_name(strip_paren(pn["cond"])))
            cur = pn
        chain_ok = conds == [N["next_is_limit"], N["next_is_file"]]
        res.check(chain_ok, "CLI-FLAGS", f"{HPBF}|main|consume-chain", w0,
                  f"flags must be interpreted only when the argument is not the operand of -f/--limit (if next_is_file / else if next_is_limit / else match); found guards {conds}")
        # the limit operand
        lim_ok = False
        for i in walk_t(mb, "If"):
            if path_name(strip_paren(i["cond"])) == N["next_is_limit"]:
                if pm.match_stmts(i["then"]["stmts"], N["next_is_limit"] + " = false; if let Ok(__v_l) = __v_a.parse::<usize>() { " + N["limit"] + " = Some(__v_l); } else { __rest; }"):
                    lim_ok = True
        res.check(lim_ok, "CLI-FLAGS", f"{HPBF}|main|limit-operand", w0, "the argument after --limit must be parsed as usize into `limit = Some(..)` and the pending flag cleared")
    # ------------------------------------------------------------------ help text vs arms (the usage text is the oracle)
    try:
        import re as _re
        ht = ast.fn(HPBF, "print_help_text")["node"]
        documented = set()
        for mc in walk_t(ht["body"], "Macro"):
            if mc["name"] != "println" or not mc.get("args"):
                continue
            a0 = mc["args"][0]
            if a0.get("t") == "Lit" and a0.get("kind") == "str":
                line_ = a0["value"]
                m_ = _re.match(r"\s{2,}(-[^\s]+)", line_)
                if not m_:
                    continue
                for tok in m_.group(1).split(","):
                    mm = _re.match(r"(-\w)\{\{?([\d|]+)\}?\}", tok)
                    if mm:
                        for d_ in mm.group(2).split("|"):
                            documented.add(mm.group(1) + d_)
                    else:
                        documented.add(tok)
        handled = set(seen) if fm and len(fm) == 1 else set()
        aliases = {"-help", "-file"}
        res.check(documented and documented <= handled, "CLI-FLAGS", f"{HPBF}|help-vs-arms|documented", where(HPBF, ht, "print_help_text"),
                  f"flags in the help text without an arm: {sorted(documented - handled)}")
        res.check(handled - aliases <= documented, "CLI-FLAGS", f"{HPBF}|help-vs-arms|handled", where(HPBF, ht, "print_help_text"),
                  f"flags with an arm that the help text does not document: {sorted(handled - aliases - documented)}")
    except Missing as m:
        res.missing("CLI-FLAGS", m)
    # ------------------------------------------------------------------ defaults
    lets = {}
    for s in mb["stmts"]:
        if s["t"] == "Local" and s["pat"]["t"] == "PIdent":
            lets[s["pat"]["name"]] = s
    for role, want in (("bits", "8"), ("opt", "2"), ("safe", "true"), ("limit", "None")):
        var = N[role]
        s = lets.get(var)
        got = ast.src1(HPBF, s["init"]) if s is not None and s["init"] is not None else None
        res.check(got == want, "CLI-DEFAULTS", f"{HPBF}|main|default|{role}", where(HPBF, s, "main") if s else w0,
                  f"default of `{var}` ({role}) is {got}, documented default is {want}")
    kd = []
    for s in mb["stmts"]:
        if s["t"] == "ExprStmt" and s["expr"]["t"] == "BlockExpr":
            a = assign_of(s["expr"])
            # attributes of expression statements are not kept by the dumper on ExprStmt; recover from source
            if a and a[0] == N["kind"]:
                attr = " ".join(x["s"] for x in s["expr"].get("attrs", []) if x["path"] == "cfg").replace(" ", "")
                kd.append((attr, ast.src1(HPBF, a[1])))
    want = {(X86_CFG.replace(" ", ""), "ExecutorKind::BaseJit"), (("cfg(not(" + X86_CFG[4:-1] + "))").replace(" ", ""), "ExecutorKind::BcInt")}
    res.check(set(kd) == want, "CLI-DEFAULTS", f"{HPBF}|main|default|kind", w0,
              f"default back end must be BaseJit under {X86_CFG} and BcInt otherwise; found {kd}")
    # ------------------------------------------------------------------ width dispatch
    wm = [m for m in walk_t(mb, "Match") if path_name(strip_paren(m["expr"])) == N["bits"]]
    if len(wm) != 1:
        res.bad("CLI-WIDTH", f"{HPBF}|main|width-match", w0, f"expected one `match bits`, found {len(wm)}")
    else:
        argtxt = set()
        for n in (8, 16, 32, 64):
            arm = [a for a in wm[0]["arms"] if a["pat"]["t"] == "PLit" and a["pat"]["lit"].get("digits") == str(n)]
            key = f"{HPBF}|main|width|{n}"
            if len(arm) != 1:
                res.bad("CLI-WIDTH", key, w0, f"no arm for {n} bit")
                continue
            b = strip_paren(arm[0]["body"])
            ok = b["t"] == "Call" and path_name(b["func"]) == "execute_code" and b["func"]["path"]["segs"][-1]["args"] \
                and b["func"]["path"]["segs"][-1]["args"][0]["s"] == f"u{n}"
            args = [ast.src1(HPBF, a) for a in b["args"]] if b["t"] == "Call" else None
            argtxt.add(tuple(args or ()))
            res.check(ok and args == ["&" + N["code"], N["kind"], N["opt"], N["limit"], N["safe"]], "CLI-WIDTH", key, where(HPBF, arm[0], "main"),
                      f"{n} bit must run execute_code::<u{n}>(&code, kind, opt, limit, safe); found `{ast.src1(HPBF, b)}`")
    # ------------------------------------------------------------------ kinds and modes: effect traces of execute_code
    # (every ExecutorKind x {limit, checked, static} is evaluated; helper functions of the file are followed)
    run_exec_traces(res, ast, ec)
    # ------------------------------------------------------------------ concat
    loops = [l for l in walk_t(mb, "ForLoop")]
    okl = len(loops) == 1 and ast.src1(HPBF, loops[0]["expr"]).replace(" ", "") == "env::args().skip(1)"
    res.check(okl, "CLI-CONCAT", f"{HPBF}|main|arg-loop", w0, "arguments must be processed by one in-order loop over env::args().skip(1)")
    codes = [s for s in mb["stmts"] if s["t"] == "Local" and s["pat"].get("name") == N["code"]]
    res.check(len(codes) == 1 and ast.src1(HPBF, codes[0]["init"]) == "String::new()", "CLI-CONCAT", f"{HPBF}|main|code-var", w0,
              "there must be one `let mut code = String::new()`")
    if loops:
        # the `-f <file>` operand: its branch of the argument loop is evaluated for the three outcomes of (open, read); helper functions of this file
        # are followed.  success: the file is read into `code` (appended: read_to_string) and nothing is flagged; either failure: the error is
        # reported through the error reporter and has_error becomes true
        import trace as _trf
        branch = [i_ for i_ in walk_t(loops[0]["body"], "If") if path_name(strip_paren(i_["cond"])) == N["next_is_file"]]
        argv = loops[0]["pat"].get("name") if loops[0]["pat"]["t"] == "PIdent" else None
        probs = []
        if len(branch) != 1 or argv is None:
            probs.append("the branch that consumes the operand of -f was not found")
        else:
            CODE, ARG = _trf.Sym("var:code"), _trf.Sym("var:arg")
            for what, fail in (("file read", ()), ("open fails", ("open",)), ("read fails", ("read_to_string",))):
                it = _trf.TraceInterp(ast, HPBF, fallible=("open", "read_to_string"), fail=fail)
                it.fns.pop(pe["name"], None)       # the error reporter is an effect, not something to look into
                env_ = _trf.Env()
                for nm_, v_ in ((N["code"], CODE), (argv, ARG), (N["has_error"], False), (N["next_is_file"], True), (N["next_is_limit"], False)):
                    env_.bind(nm_, v_)
                res.evaluations += 1
                try:
                    it.exec_block(branch[0]["then"], env_)
                except (_trf.Unanalysable, _trf.Reached, _trf.ReturnEx, _trf.ExitEx, KeyError, TypeError, AttributeError) as u_:
                    probs.append(f"{what}: cannot be analysed (fail closed): {type(u_).__name__} {u_}")
                    continue
                reads = [e_ for e_ in it.events if e_[0] == "method" and e_[1] == "read_to_string"]
                reports = [e_ for e_ in it.events if e_[0] == "call" and e_[1].split("::")[-1] == pe["name"]]
                flagged = env_.get(N["has_error"])
                opened = [e_ for e_ in it.events if e_[0] == "call" and e_[1].split("::")[-1] == "open"]
                if not opened or not any(_trf.derives_from(a_, ARG) for a_ in opened[0][2]):
                    probs.append(f"{what}: the file named by the argument is not opened")
                if not fail:
                    # the contents reach `code` by appending: read_to_string(&mut code) on the opened file, or a buffer / returned String that is
                    # then pushed onto `code`
                    creads = [e_ for e_ in it.events if e_[0] == "call" and e_[1].split("::")[-1] == "read_to_string"]
                    direct = [e_ for e_ in reads if list(e_[3]) == [CODE] and _trf.derives_from(e_[2], ARG)]
                    bufs = [e_[3][0] for e_ in reads if len(e_[3]) == 1 and e_[3][0] is not CODE and _trf.derives_from(e_[2], ARG)] + \
                           [_trf.Sym("call:" + e_[1], tuple(e_[2])) for e_ in creads if any(_trf.derives_from(a_, ARG) for a_ in e_[2])]
                    pushes = [e_ for e_ in it.events if e_[0] == "method" and e_[1] == "push_str" and e_[2] is CODE and len(e_[3]) == 1]
                    now = env_.get(N["code"])
                    via_push = [e_ for e_ in pushes if any(_trf.derives_from(e_[3][0], b_) or e_[3][0] == b_ for b_ in bufs)]
                    via_add = now is not CODE and isinstance(now, _trf.Sym) and now.label == "op:+" and now.args and now.args[0] is CODE and \
                        any(_trf.derives_from(now, b_) for b_ in bufs)
                    n_ways = len(direct) + len(via_push) + (1 if via_add else 0)
                    if n_ways != 1 or (now is not CODE and not via_add):
                        probs.append("the file's contents are not read into `code` with read_to_string (append)" if n_ways == 0 else
                                     "the file's contents are appended more than once, or `code` is replaced")
                    if flagged is not False or reports:
                        probs.append("a successfully read file is reported / flagged as an error")
                else:
                    if not reports:
                        probs.append(f"{what}: the error is not reported")
                    if flagged is not True:
                        probs.append(f"{what}: has_error is not set: the process would exit 0")
                    if fail == ("open",) and reads:
                        probs.append("open fails: the file is read although it could not be opened")
        res.check(not [p_ for p_ in probs if "has_error" not in p_ and "not reported" not in p_], "CLI-CONCAT", f"{HPBF}|main|file-append", w0,
                  "file contents must be appended to `code` inside the argument loop: " + "; ".join(probs[:2]))
        res.rule("CLI-EXIT", "every diagnosed error goes to stderr, sets has_error, suppresses execution, and the process "
                 "exits 1 iff has_error else 0") if False else None
        FILE_PROBS = [p_ for p_ in probs if "has_error" in p_ or "not reported" in p_ or "cannot be analysed" in p_]
        writes = [a for a in walk_t(mb, "Assign") if path_name(a["left"]) == N["code"]]
        clears = [m for m in walk_t(mb, "MethodCall") if path_name(m["receiver"]) == N["code"] and m["method"] in ("clear", "truncate", "insert_str", "insert", "replace_range")]
        res.check(not writes and not clears, "CLI-CONCAT", f"{HPBF}|main|append-only", w0, "`code` must only ever be appended to")
    # ------------------------------------------------------------------ mode (see run_exec_traces)
    eb = ec["node"]["body"]
    unsafe_calls = [m for f in ast.find_fns(HPBF) for m in walk_t(f["node"].get("body") or {}, "MethodCall") if m["method"] == "execute_unsafe"]
    res.check(len(unsafe_calls) == 1, "CLI-MODE", f"{HPBF}|execute_unsafe-sites", HPBF, f"execute_unsafe must be called exactly once (after the pre-allocation); found {len(unsafe_calls)}")
    # ------------------------------------------------------------------ exit
    par = parents(main["node"])
    # every call of the error reporter in main itself is followed by has_error = true in the same block
    pes = [c for c in walk_t(mb, "Call") if path_name(c["func"]) == pe["name"]]
    for i, c in enumerate(pes):
        cur = c
        blk = None
        while id(cur) in par:
            cur, k = par[id(cur)]
            if cur["t"] == "Block":
                blk = cur
                break
        sets_ = blk is not None and any(path_name(strip_paren(a_["left"])) == N["has_error"] and strip_paren(a_["right"]).get("value") is True for a_ in walk_t(blk, "Assign"))
        res.check(bool(sets_), "CLI-EXIT", f"{HPBF}|main|print_error|{i}", where(HPBF, c, "main"),
                  "a diagnosed error does not set has_error: the process would exit 0")
    # the two file errors (evaluated above on the -f branch, helpers followed)
    fp_ = locals().get("FILE_PROBS", ["the -f branch was not analysed"])
    res.check(not fp_, "CLI-EXIT", f"{HPBF}|main|print_error-sites", w0, "an unreadable or undecodable -f file must be reported and must set has_error: " + "; ".join(fp_[:2]))
    # the process status: evaluate the statements that lead to exit() for has_error in {true, false}
    import trace as _tr
    stm = mb["stmts"]
    ex_i = [i_ for i_, s_ in enumerate(stm) if any(path_name(strip_paren(c_["func"])) in ("exit", "process::exit", "std::process::exit") for c_ in walk_t(s_, "Call"))]
    why_exit = "main does not end in exit()"
    ok_exit = False
    if ex_i and ex_i[-1] == len(stm) - 1:
        k_ = len(stm) - 1
        # include the directly preceding `let`s the exit statement depends on
        used = {n_["path"]["name"] for n_ in walk_t(stm[k_], "PathExpr")}
        while k_ > 0 and stm[k_ - 1]["t"] == "Local" and stm[k_ - 1]["pat"]["t"] == "PIdent" and stm[k_ - 1]["pat"]["name"] in used:
            k_ -= 1
            used |= {n_["path"]["name"] for n_ in walk_t(stm[k_], "PathExpr")}
        codes_ = {}
        try:
            for he in (True, False):
                it = _tr.TraceInterp(ast, HPBF)
                env_ = _tr.Env()
                env_.bind(N["has_error"], he)
                try:
                    it.exec_block({"t": "Block", "stmts": stm[k_:], "sp": [0, 0, 0, 0]}, env_)
                    codes_[he] = "no exit"
                except _tr.ExitEx as x_:
                    codes_[he] = x_.code
            ok_exit = isinstance(codes_[True], int) and codes_[True] != 0 and codes_[False] == 0
            why_exit = f"exit status is {codes_[True]!r} after an error and {codes_[False]!r} without: must be non-zero / 0"
        except (_tr.Unanalysable, _tr.Reached, _tr.ReturnEx, KeyError) as u_:
            why_exit = f"the exit status computation cannot be analysed (fail closed): {u_}"
    res.check(ok_exit, "CLI-EXIT", f"{HPBF}|main|exit", where(HPBF, stm[-1], "main"), why_exit)
    # execution only when no error so far, and its Err is reported
    run_ok = False
    for i in walk_t(mb, "If"):
        c = ast.src1(HPBF, i["cond"]).replace(" ", "")
        if c == "!" + N["has_error"] and wm and any(x is wm[0] for x in walk(i["then"])):
            inner = [j for j in walk_t(i["then"], "If") if strip_paren(j["cond"])["t"] == "Let"]
            for j in inner:
                p = strip_paren(j["cond"])["pat"]
                if p["t"] == "PTupleStruct" and p["path"]["name"] == "Err" and p["elems"][0]["t"] == "PIdent":
                    en = p["elems"][0]["name"]
                    tt = ast.src1(HPBF, j["then"], 200).replace(" ", "")
                    run_ok = f"{pe['name']}({en});" in tt and N["has_error"] + "=true;" in tt
    res.check(run_ok, "CLI-EXIT", f"{HPBF}|main|run-guard", w0, "execution must happen only when no error was diagnosed, and its Err must be printed and set has_error")
    # print_error writes to stderr for the bracket and file errors
    pm = [m for m in walk_t(pe["node"]["body"], "Match")]
    ok_pe = False
    if len(pm) == 1:
        ok_pe = True
        for a in pm[0]["arms"]:
            macs = [m["name"] for m in walk_t(a["body"], "Macro")]
            if macs != ["eprintln"]:
                ok_pe = False
    res.check(ok_pe, "CLI-EXIT", f"{HPBF}|print_error|stderr", where(HPBF, pe["node"], "print_error"), "every error kind must be reported with eprintln! (stderr)")
    # errors of parsing back ends reach main: `?` on create/parse inside execute_code
    tries = [t_ for t_ in walk_t(eb, "Try")]
    creates = [c for c in walk_t(eb, "Call") if path_name(c["func"]) and (path_name(c["func"]).endswith("::create") or path_name(c["func"]).endswith("::parse"))]
    tpar = parents(ec["node"])
    allq = all(tpar[id(c)][0]["t"] == "Try" for c in creates)
    res.check(allq and creates, "CLI-EXIT", f"{HPBF}|execute_code|propagate", where(HPBF, ec["node"], "execute_code"),
              "every parse/create error must be propagated with `?` to main")
